"""Obligations, findings, known-findings matching, evidence, exit codes."""
import json
import os
import time

from .project import AnalysisError
from .astq import norm_text

VERIF = os.path.dirname(os.path.dirname(os.path.abspath(__file__)))
KNOWN_FILE = os.path.join(VERIF, 'known_findings.json')


def load_known():
    if not os.path.exists(KNOWN_FILE):
        return {'known': [], 'fixed': []}
    with open(KNOWN_FILE) as f:
        return json.load(f)


class Finding(object):
    def __init__(self, rule, where, construct, message, path=None, key=None):
        self.rule = rule
        self.where = where            # 'circus/watcher.py:673 (Watcher.spawn_process)'
        self.construct = construct    # normalised statement text
        self.message = message
        self.path = path
        self.key = key                # stable key: rule|module:qualname|construct

    def to_json(self):
        d = {'rule': self.rule, 'where': self.where, 'construct': self.construct,
             'message': self.message, 'key': self.key}
        if self.path:
            d['path'] = self.path
        return d


class Run(object):
    def __init__(self, prop_id, tier='quick', project=None):
        self.prop_id = prop_id
        self.tier = tier
        self.project = project
        self.t0 = time.time()
        self.obligations = []   # dicts
        self.findings = []
        self.rule_docs = {}
        self.counts = {}
        self.notes = []
        self.extra = {}
        self.analysis_errors = []

    # -- recording -------------------------------------------------------
    def rule(self, rid, doc):
        self.rule_docs[rid] = doc

    def ok(self, rule, what, where=None):
        self.obligations.append({'rule': rule, 'what': what, 'where': where,
                                 'ok': True})

    def fail(self, rule, finfo, astnode, message, path=None, what=None,
             construct=None):
        """Record a violated obligation located at astnode in finfo."""
        if finfo is not None:
            where = finfo.where(astnode)
            base = '%s' % finfo.key
        else:
            where = str(astnode)
            base = '-'
        from .astq import alpha_text
        if construct is None:
            if hasattr(astnode, '_fields'):
                construct = alpha_text(astnode, finfo.node) if finfo is not None \
                    else norm_text(astnode)
            else:
                construct = str(astnode)
        elif finfo is not None:
            construct = alpha_text(construct, finfo.node)
        if len(construct) > 160:
            construct = construct[:160]
        key = '%s|%s|%s' % (rule, base, construct)
        # identical constructs in one function: number them in report order
        dup = sum(1 for x in self.findings if x.key.split('#')[0] == key)
        if dup:
            key = '%s#%d' % (key, dup + 1)
        f = Finding(rule, where, construct, message, path, key)
        self.findings.append(f)
        self.obligations.append({'rule': rule, 'what': what or message,
                                 'where': where, 'ok': False, 'key': key})
        return f

    def check(self, rule, cond, what, finfo=None, astnode=None, message=None,
              path=None, construct=None):
        if cond:
            self.ok(rule, what, finfo.where(astnode) if finfo is not None else None)
        else:
            self.fail(rule, finfo, astnode if astnode is not None else
                      (finfo.node if finfo is not None else what),
                      message or ('violated: ' + what), path, what=what,
                      construct=construct)
        return cond

    def count(self, rule, n, minimum, what):
        """Vacuity floor: a rule matching fewer instances than confirmed by
        hand means the analysis lost its anchor."""
        self.counts[rule] = {'found': n, 'minimum': minimum, 'what': what}
        if n < minimum:
            raise AnalysisError('%s %s: found %d instance(s) of "%s", expected at '
                                'least %d - anchor lost' % (self.prop_id, rule, n,
                                                            what, minimum))

    def need(self, rule, items, what, finfo, message=None):
        """A required step: its absence from an existing anchor function is
        a violation (not a lost anchor)."""
        self.counts.setdefault(rule + ':' + what, {'found': len(items), 'what': what})
        if items:
            self.ok(rule, 'present: ' + what, finfo.where(finfo.node))
            return True
        self.fail(rule, finfo, finfo.node, message or ('required step missing: ' + what),
                  what='present: ' + what, construct='missing: ' + what)
        return False

    def each(self, ctx, rules):
        """Run rule functions one by one; an AnalysisError in one rule must not
        hide violations found by the others."""
        for r in rules:
            try:
                r(self, ctx)
            except AnalysisError as e:
                self.analysis_errors.append('%s: %s' % (r.__name__, e))
            except Exception as e:   # a defect of the checker, never a violation
                import traceback
                tb = traceback.format_exc().strip().splitlines()
                self.analysis_errors.append('%s: internal error %r at %s' % (
                    r.__name__, e, ' | '.join(x.strip() for x in tb[-4:-1])))

    def share(self, ctx, rule_fn, src_rule, dst_rule, doc=None, keep=None):
        """Run a rule function of another property and adopt its obligations
        and findings under this property's rule id dst_rule."""
        sub = type(self)(self.prop_id, self.tier, self.project)
        try:
            rule_fn(sub, ctx)
        except AnalysisError as e:
            self.analysis_errors.append('%s (shared %s): %s' % (dst_rule, src_rule, e))
        if doc:
            self.rule_docs[dst_rule] = doc
        for o in sub.obligations:
            o = dict(o)
            if o.get('rule') != src_rule:
                continue
            if keep is not None and not keep(o.get('key') or o.get('where') or ''):
                continue
            o['rule'] = dst_rule
            if 'key' in o:
                o['key'] = o['key'].replace(src_rule + '|', dst_rule + '|', 1)
            self.obligations.append(o)
        for fd in sub.findings:
            if fd.rule != src_rule:
                continue
            if keep is not None and not keep(fd.key):
                continue
            fd.rule = dst_rule
            fd.key = fd.key.replace(src_rule + '|', dst_rule + '|', 1)
            self.findings.append(fd)
        self.analysis_errors.extend(sub.analysis_errors)

    def note(self, text):
        self.notes.append(text)

    # -- finishing -------------------------------------------------------
    def finish(self, explanation, assumptions=None, write=True, quiet=False):
        known = load_known()
        mine = [k for k in known.get('known', []) if k['property'] == self.prop_id]
        known_keys = {k['key']: k for k in mine}
        new = []
        matched = []
        for f in self.findings:
            if f.key in known_keys:
                matched.append((f, known_keys[f.key]))
            else:
                new.append(f)
        lines = []
        seen_known = set()
        for f, k in matched:
            if k['key'] in seen_known:
                continue
            seen_known.add(k['key'])
            lines.append('KNOWN-FINDING: property=%s %s [%s] %s' % (
                self.prop_id, k.get('id', ''), f.where, k.get('what', f.message)))
        stale = [k for k in mine if k['key'] not in seen_known]
        replay_paths = []
        if new:
            rdir = os.path.join(VERIF, 'evidence', 'replay')
            os.makedirs(rdir, exist_ok=True)
            rp = os.path.join(rdir, '%s.json' % self.prop_id)
            with open(rp, 'w') as fh:
                json.dump({'property': self.prop_id,
                           'violations': [f.to_json() for f in new]}, fh, indent=1)
            replay_paths.append(rp)
            for f in new:
                lines.append('  %s %s: %s :: %s' % (f.rule, f.where, f.message,
                                                   f.construct))
                if f.path:
                    for step in f.path:
                        lines.append('      ' + step)
            lines.append('VIOLATION property=%s replay=%s' % (self.prop_id, rp))
        n_ob = len(self.obligations)
        n_ok = sum(1 for o in self.obligations if o['ok'])
        wall = time.time() - self.t0
        samples = []
        for o in self.obligations[:400]:
            samples.append({k: v for k, v in o.items() if v is not None})
        cov = {
            'explanation': explanation,
            'obligations': n_ob,
            'discharged': n_ok,
            'evaluations': n_ob,
            'distinct_nontrivial': len({(o['rule'], o['what'], o.get('where'))
                                        for o in self.obligations}),
            'rule': 'one evaluation = one rule instance (obligation) decided on '
                    'the parsed source of the current /repo tree; distinct = '
                    'distinct (rule, obligation, location)',
            'rules': self.rule_docs,
            'instance_counts': self.counts,
            'samples': samples,
            'known_findings_matched': [k.get('id') for _, k in matched],
            'known_findings_not_reproduced': [k.get('id') for k in stale],
            'new_violations': [f.to_json() for f in new],
            'exhaustive': True,
            'notes': self.notes,
            'analysis_errors': self.analysis_errors,
        }
        cov.update(self.extra)
        if self.project is not None:
            mods = sorted(self.project.consulted) or sorted(self.project.modules)
            cov['files_analysed'] = [
                {'file': self.project.modules[m].relpath,
                 'sha256': self.project.modules[m].sha256}
                for m in mods if m in self.project.modules]
            cov['repo_root'] = self.project.root
        ev = {
            'property_id': self.prop_id,
            'tier': self.tier,
            'seed': int(os.environ.get('VERIF_SEED', '0') or 0),
            'level': 'other',
            'coverage': cov,
            'assumptions': assumptions or [],
            'wall_s': round(wall, 3),
            'violations': len(new),
        }
        if write:
            edir = os.path.join(VERIF, 'evidence')
            os.makedirs(edir, exist_ok=True)
            with open(os.path.join(edir, '%s.json' % self.prop_id), 'w') as fh:
                json.dump(ev, fh, indent=1, sort_keys=True, default=str)
        if not quiet:
            print('%s [%s]: %d obligations, %d discharged, %d known finding(s), '
                  '%d new violation(s), %.2fs' % (self.prop_id, self.tier, n_ob,
                                                  n_ok, len(seen_known), len(new),
                                                  wall))
            for k in stale:
                print('NOTE: known finding %s no longer reproduced (fixed upstream?)'
                      % k.get('id'))
            for ln in lines:
                print(ln)
        self.result_lines = lines
        self.new_findings = new
        self.matched = matched
        self.evidence = ev
        if new:
            return 1
        if self.analysis_errors:
            for e in self.analysis_errors:
                print('ANALYSIS-ERROR property=%s %s' % (self.prop_id, e))
            return 2
        return 0
