"""Thorough tier: sensitivity self-test of the checker for one property.

For each seeded variant (one AST-level/source-level edit that breaks one rule
instance while the file still compiles) the property's check is run on a
scratch copy of /repo/circus (+docs) under $TMPDIR and must report a NEW
violation from one of the expected rules; for each benign twin (behaviour-
preserving rewrite) it must stay silent.  A miss or a false alarm is a defect
of the checker (reported as such, exit 2), not of circus.  Variants whose
anchor text is not present in the current tree are skipped and listed.
Scratch copies are removed as each worker finishes; /repo is never touched.
"""
import ast
import importlib
import json
import os
import shutil
import subprocess
import sys
import tempfile
from concurrent.futures import ThreadPoolExecutor

HERE = os.path.dirname(os.path.abspath(__file__))
VERIF = os.path.dirname(HERE)


def load_mutants(prop):
    out = []
    try:
        mod = importlib.import_module('selftest.mutants.%s' % prop.lower())
        out = list(mod.MUTANTS)
    except ImportError:
        pass
    # micro-twins (equivalent idiom at the exact spot a rule looks at): silent everywhere
    try:
        from selftest.mutants import zz_micro
        out.extend(dict(m) for m in zz_micro.MICRO)
    except ImportError:
        pass
    # independently seeded breakages kept under /verif/seeded/<id>/
    sdir = os.path.join(VERIF, 'seeded')
    if os.path.isdir(sdir):
        for sid in sorted(os.listdir(sdir)):
            mp = os.path.join(sdir, sid, 'meta.json')
            pp = os.path.join(sdir, sid, 'patch.diff')
            if os.path.exists(mp) and os.path.exists(pp):
                meta = json.load(open(mp))
                if meta.get('breaks_property') == prop and meta.get('expect', 'violation') == 'violation':
                    out.append({'name': 'seed:' + sid, 'patch': pp, 'expect': 'violation'})
    # behaviour-preserving refactorings written by sub-agents (refactors/<id>/): the
    # check must stay silent on every one of them, whatever the property
    rdir = os.path.join(VERIF, 'refactors')
    if os.path.isdir(rdir):
        for rid in sorted(os.listdir(rdir)):
            pp = os.path.join(rdir, rid, 'patch.diff')
            if os.path.exists(pp):
                out.append({'name': 'refactor:' + rid, 'patch': pp, 'expect': 'silent'})
    return out


class _RenameLocals(ast.NodeTransformer):
    """benign twin: every local variable of every function gets a new name"""

    def visit_FunctionDef(self, node):
        a = node.args
        params = {x.arg for x in a.args + a.kwonlyargs + a.posonlyargs}
        if a.vararg:
            params.add(a.vararg.arg)
        if a.kwarg:
            params.add(a.kwarg.arg)
        stores, glob, nested = set(), set(), set()
        for n in ast.walk(node):
            if isinstance(n, (ast.Global, ast.Nonlocal)):
                glob |= set(n.names)
            if isinstance(n, ast.Name) and isinstance(n.ctx, (ast.Store, ast.Del)):
                stores.add(n.id)
            if isinstance(n, (ast.FunctionDef, ast.Lambda)) and n is not node:
                nested |= {x.arg for x in n.args.args}
        ren = {s for s in stores if s not in params | glob | nested and not s.startswith('__')}
        for n in ast.walk(node):
            if isinstance(n, ast.Name) and n.id in ren:
                n.id += '_r'
        return node


class _AddLogging(ast.NodeTransformer):
    """benign twin: a logger.debug call at the start of every function body"""

    def visit_FunctionDef(self, node):
        self.generic_visit(node)
        call = ast.parse("logger.debug('enter')").body[0]
        i = 1 if (node.body and isinstance(node.body[0], ast.Expr) and
                  isinstance(node.body[0].value, ast.Constant)) else 0
        node.body.insert(i, call)
        return node


class _TryFinally(ast.NodeTransformer):
    """benign twin: every function body wrapped in try/finally: pass"""

    def visit_FunctionDef(self, node):
        self.generic_visit(node)
        i = 1 if (node.body and isinstance(node.body[0], ast.Expr) and
                  isinstance(node.body[0].value, ast.Constant)) else 0
        body = node.body[i:]
        if not body:
            return node
        tr = ast.Try(body=body, handlers=[], orelse=[], finalbody=[ast.Pass()])
        node.body = node.body[:i] + [tr]
        return node


class _GuardClauses(ast.NodeTransformer):
    """benign twin: a function that ends with `if c: BODY` gets `if not c: return` + BODY;
    `if c: ...return.. else: REST` loses its else; `x = a if c else b` statements become
    if/else"""

    def _is_gen(self, node):
        return any(isinstance(n, (ast.Yield, ast.YieldFrom)) for n in ast.walk(node))

    def visit_FunctionDef(self, node):
        self.generic_visit(node)
        body = node.body
        last = body[-1]
        if isinstance(last, ast.If) and not last.orelse and len(last.body) >= 1 and \
                not isinstance(last.body[-1], (ast.Return, ast.Raise)):
            guard = ast.If(test=ast.UnaryOp(op=ast.Not(), operand=last.test),
                           body=[ast.Return(value=None)], orelse=[])
            node.body = body[:-1] + [guard] + last.body
        return node

    def visit_If(self, node):
        self.generic_visit(node)
        return node


def _flatten_else(stmts):
    out = []
    for s in stmts:
        if isinstance(s, ast.If) and s.orelse and s.body and \
                isinstance(s.body[-1], (ast.Return, ast.Raise, ast.Continue, ast.Break)) and \
                not (len(s.orelse) == 1 and isinstance(s.orelse[0], ast.If)):
            rest = s.orelse
            s.orelse = []
            out.append(s)
            out.extend(rest)
        else:
            out.append(s)
    return out


class _ElseAfterReturn(ast.NodeTransformer):
    def generic_visit(self, node):
        super().generic_visit(node)
        for field in ('body', 'orelse', 'finalbody'):
            v = getattr(node, field, None)
            if isinstance(v, list) and v and isinstance(v[0], ast.stmt):
                setattr(node, field, _flatten_else(v))
        return node


def _rename_private_functions(root):
    """benign twin: every private function/method (leading underscore, not dunder,
    not also used as a plain attribute) gets a new name, at definition and uses"""
    import re
    files = []
    for dp, dn, fn in os.walk(os.path.join(root, 'circus')):
        for f in fn:
            if f.endswith('.py'):
                files.append(os.path.join(dp, f))
    defs, stored = set(), set()
    for p in files:
        t = ast.parse(open(p, encoding='utf8').read())
        for n in ast.walk(t):
            if isinstance(n, (ast.FunctionDef, ast.AsyncFunctionDef)) and n.name.startswith('_') \
                    and not n.name.endswith('__'):
                defs.add(n.name)
            elif isinstance(n, ast.Attribute) and isinstance(n.ctx, ast.Store):
                stored.add(n.attr)
            elif isinstance(n, ast.Name) and isinstance(n.ctx, ast.Store):
                stored.add(n.id)
            elif isinstance(n, ast.arg):
                stored.add(n.arg)
            elif isinstance(n, ast.keyword) and n.arg:
                stored.add(n.arg)
    names = sorted(defs - stored, key=len, reverse=True)
    rx = re.compile(r'(?<![\w])(%s)(?![\w])' % '|'.join(re.escape(n) for n in names))
    for p in files:
        src = open(p, encoding='utf8').read()
        out = rx.sub(lambda m: m.group(1) + '_rn', src)
        compile(out, p, 'exec')
        with open(p, 'w', encoding='utf8') as fh:
            fh.write(out)


class _ReorderMethods(ast.NodeTransformer):
    """benign twin: the methods of every class in reverse order (a class whose decorators or
    class-level statements refer to its own methods is left alone)"""

    def visit_ClassDef(self, node):
        self.generic_visit(node)
        defs = [b for b in node.body if isinstance(b, (ast.FunctionDef, ast.AsyncFunctionDef))]
        names = {d.name for d in defs}
        if len(names) != len(defs):
            return node
        for b in node.body:
            holders = b.decorator_list if isinstance(b, (ast.FunctionDef, ast.AsyncFunctionDef)) \
                else [b]
            for h in holders:
                if any(isinstance(n, ast.Name) and n.id in names for n in ast.walk(h)):
                    return node
        it = iter(reversed(defs))
        node.body = [next(it) if isinstance(b, (ast.FunctionDef, ast.AsyncFunctionDef)) else b
                     for b in node.body]
        return node


class _Annotate(ast.NodeTransformer):
    """benign twin: annotations on every parameter and return, a docstring where missing"""

    def visit_FunctionDef(self, node):
        self.generic_visit(node)
        for a in node.args.posonlyargs + node.args.args + node.args.kwonlyargs:
            if a.arg not in ('self', 'cls') and a.annotation is None:
                a.annotation = ast.Constant(value='object')
        if node.returns is None and node.name != '__init__':
            node.returns = ast.Constant(value='object')
        if not (node.body and isinstance(node.body[0], ast.Expr) and
                isinstance(node.body[0].value, ast.Constant) and
                isinstance(node.body[0].value.value, str)):
            node.body.insert(0, ast.Expr(value=ast.Constant(value='See the class documentation.')))
        return node


class _ReturnTemp(ast.NodeTransformer):
    """benign twin: `return E` becomes `result_ = E; return result_` (not in generators, where
    `return` carries the coroutine result all the same but the rules may key on it)"""

    def visit_FunctionDef(self, node):
        self.generic_visit(node)

        def rec(stmts):
            out = []
            for st in stmts:
                if isinstance(st, ast.Return) and st.value is not None and \
                        not isinstance(st.value, (ast.Constant, ast.Name)):
                    out.append(ast.Assign(targets=[ast.Name(id='result_', ctx=ast.Store())],
                                          value=st.value))
                    out.append(ast.Return(value=ast.Name(id='result_', ctx=ast.Load())))
                    continue
                if not isinstance(st, (ast.FunctionDef, ast.AsyncFunctionDef, ast.ClassDef)):
                    for field in ('body', 'orelse', 'finalbody'):
                        v = getattr(st, field, None)
                        if isinstance(v, list) and v and isinstance(v[0], ast.stmt):
                            setattr(st, field, rec(v))
                    for h in getattr(st, 'handlers', []) or []:
                        h.body = rec(h.body)
                out.append(st)
            return out
        node.body = rec(node.body)
        return node


class _LoopGuards(ast.NodeTransformer):
    """benign twin: `for ..: if c: BODY` becomes `for ..: if not c: continue` + BODY"""

    def _loop(self, node):
        self.generic_visit(node)
        if len(node.body) == 1 and isinstance(node.body[0], ast.If) and not node.body[0].orelse:
            i = node.body[0]
            node.body = [ast.If(test=ast.UnaryOp(op=ast.Not(), operand=i.test),
                                body=[ast.Continue()], orelse=[])] + i.body
        return node

    visit_For = visit_While = _loop


class _DictCopy(ast.NodeTransformer):
    """benign twin: X.copy() written dict(X) (receivers that are plainly dicts: *_cfg, config,
    env, *_conf, options)"""

    def visit_Call(self, node):
        self.generic_visit(node)
        if isinstance(node.func, ast.Attribute) and node.func.attr == 'copy' and not node.args \
                and not node.keywords:
            t = ast.unparse(node.func.value)
            if t.endswith(('_cfg', 'config', 'env', '_conf', 'cfg')) or t in ('i', 'options'):
                return ast.Call(func=ast.Name(id='dict', ctx=ast.Load()), args=[node.func.value],
                                keywords=[])
        return node


class _FlipEq(ast.NodeTransformer):
    """benign twin: a == b / a != b written b == a / b != a (both sides side-effect free)"""

    def visit_Compare(self, node):
        self.generic_visit(node)
        if len(node.ops) == 1 and isinstance(node.ops[0], (ast.Eq, ast.NotEq)):
            a, b = node.left, node.comparators[0]
            pure = lambda e: not any(isinstance(x, (ast.Call, ast.Yield, ast.Await, ast.NamedExpr))
                                     for x in ast.walk(e))
            if pure(a) and pure(b) and not isinstance(b, ast.Constant):
                return ast.Compare(left=b, ops=node.ops, comparators=[a])
        return node


class _InToEq(ast.NodeTransformer):
    """benign twin: x in (a, b) written x == a or x == b (x simple, 2-3 simple elements)"""

    def visit_Compare(self, node):
        self.generic_visit(node)
        if len(node.ops) == 1 and isinstance(node.ops[0], (ast.In, ast.NotIn)) and \
                isinstance(node.comparators[0], ast.Tuple) and \
                2 <= len(node.comparators[0].elts) <= 3 and \
                isinstance(node.left, (ast.Name, ast.Attribute)) and \
                all(isinstance(e, (ast.Name, ast.Attribute, ast.Constant))
                    for e in node.comparators[0].elts):
            neg = isinstance(node.ops[0], ast.NotIn)
            parts = [ast.Compare(left=node.left, ops=[ast.NotEq() if neg else ast.Eq()],
                                 comparators=[e]) for e in node.comparators[0].elts]
            return ast.BoolOp(op=ast.And() if neg else ast.Or(), values=parts)
        return node


class _TempBeforeStore(ast.NodeTransformer):
    """benign twin: T = E (T an attribute or subscript, E a call) written tmp_ = E; T = tmp_"""

    def _block(self, stmts):
        out = []
        for st in stmts:
            if isinstance(st, ast.Assign) and len(st.targets) == 1 and \
                    isinstance(st.targets[0], (ast.Attribute, ast.Subscript)) and \
                    isinstance(st.value, ast.Call):
                out.append(ast.Assign(targets=[ast.Name(id='tmp_', ctx=ast.Store())], value=st.value))
                out.append(ast.Assign(targets=st.targets, value=ast.Name(id='tmp_', ctx=ast.Load())))
            else:
                out.append(st)
        return out

    def generic_visit(self, node):
        super().generic_visit(node)
        for field in ('body', 'orelse', 'finalbody'):
            v = getattr(node, field, None)
            if isinstance(v, list) and v and isinstance(v[0], ast.stmt) and \
                    not isinstance(node, ast.ClassDef):
                setattr(node, field, self._block(v))
        return node


class _SwapPolarity(ast.NodeTransformer):
    """benign twin: if c: A else: B written if not c: B else: A (c a simple positive test)"""

    def visit_If(self, node):
        self.generic_visit(node)
        if node.orelse and not (len(node.orelse) == 1 and isinstance(node.orelse[0], ast.If)) and \
                isinstance(node.test, (ast.Name, ast.Attribute, ast.Call, ast.Compare)):
            return ast.If(test=ast.UnaryOp(op=ast.Not(), operand=node.test), body=node.orelse,
                          orelse=node.body)
        return node


class _WhileTrueBreak(ast.NodeTransformer):
    """benign twin: while c: BODY written while True: if not c: break; BODY (no else clause)"""

    def visit_While(self, node):
        self.generic_visit(node)
        if node.orelse or (isinstance(node.test, ast.Constant)):
            return node
        guard = ast.If(test=ast.UnaryOp(op=ast.Not(), operand=node.test), body=[ast.Break()],
                       orelse=[])
        return ast.While(test=ast.Constant(value=True), body=[guard] + node.body, orelse=[])


class _CompToLoop(ast.NodeTransformer):
    """benign twin: x = [E for v in it if c] (a statement) written as an append loop"""

    def _block(self, stmts):
        out = []
        for st in stmts:
            if isinstance(st, ast.Assign) and len(st.targets) == 1 and \
                    isinstance(st.targets[0], ast.Name) and isinstance(st.value, ast.ListComp) and \
                    len(st.value.generators) == 1 and not st.value.generators[0].is_async and \
                    not any(isinstance(n, ast.Name) and n.id == st.targets[0].id
                            for n in ast.walk(st.value)):
                g = st.value.generators[0]
                name = st.targets[0].id
                body = [ast.Expr(value=ast.Call(
                    func=ast.Attribute(value=ast.Name(id=name, ctx=ast.Load()), attr='append',
                                       ctx=ast.Load()), args=[st.value.elt], keywords=[]))]
                for c in reversed(g.ifs):
                    body = [ast.If(test=c, body=body, orelse=[])]
                out.append(ast.Assign(targets=[ast.Name(id=name, ctx=ast.Store())],
                                      value=ast.List(elts=[], ctx=ast.Load())))
                out.append(ast.For(target=g.target, iter=g.iter, body=body, orelse=[]))
            else:
                out.append(st)
        return out

    def generic_visit(self, node):
        super().generic_visit(node)
        for field in ('body', 'orelse', 'finalbody'):
            v = getattr(node, field, None)
            if isinstance(v, list) and v and isinstance(v[0], ast.stmt) and \
                    not isinstance(node, ast.ClassDef):
                setattr(node, field, self._block(v))
        return node


class _AugExpand(ast.NodeTransformer):
    """benign twin: x += e written x = x + e (x a plain name, numbers/strings)"""

    def visit_AugAssign(self, node):
        if isinstance(node.target, ast.Name) and isinstance(node.op, (ast.Add, ast.Sub)) and \
                isinstance(node.value, (ast.Constant, ast.Name, ast.Attribute)):
            return ast.Assign(targets=[ast.Name(id=node.target.id, ctx=ast.Store())],
                              value=ast.BinOp(left=ast.Name(id=node.target.id, ctx=ast.Load()),
                                              op=node.op, right=node.value))
        return node


class _ElifToNested(ast.NodeTransformer):
    """benign twin: if a: A elif b: B else: C  written  if a: A else: (if b: B else: C) - the same
    tree for the parser; the unparser writes elif again, so: a `pass`-free no-op marker"""

    def visit_If(self, node):
        self.generic_visit(node)
        return node


def _global_twin(root, kind):
    if kind == 'rename-private-functions':
        return _rename_private_functions(root)
    for dp, dn, fn in os.walk(os.path.join(root, 'circus')):
        for f in fn:
            if f.endswith('.py'):
                p = os.path.join(dp, f)
                t = ast.parse(open(p, encoding='utf8').read())
                if kind == 'rename-locals':
                    t = _RenameLocals().visit(t)
                elif kind == 'add-logging':
                    t = _AddLogging().visit(t)
                elif kind == 'try-finally':
                    t = _TryFinally().visit(t)
                elif kind == 'guard-clauses':
                    t = _ElseAfterReturn().visit(_GuardClauses().visit(t))
                elif kind == 'reorder-methods':
                    t = _ReorderMethods().visit(t)
                elif kind == 'annotate':
                    t = _Annotate().visit(t)
                elif kind == 'return-temp':
                    t = _ReturnTemp().visit(t)
                elif kind == 'loop-guards':
                    t = _LoopGuards().visit(t)
                elif kind == 'dict-copy':
                    t = _DictCopy().visit(t)
                elif kind == 'flip-eq':
                    t = _FlipEq().visit(t)
                elif kind == 'in-to-eq':
                    t = _InToEq().visit(t)
                elif kind == 'temp-before-store':
                    t = _TempBeforeStore().visit(t)
                elif kind == 'swap-polarity':
                    t = _SwapPolarity().visit(t)
                elif kind == 'while-true-break':
                    t = _WhileTrueBreak().visit(t)
                elif kind == 'comp-to-loop':
                    t = _CompToLoop().visit(t)
                elif kind == 'aug-expand':
                    t = _AugExpand().visit(t)
                ast.fix_missing_locations(t)
                out = ast.unparse(t) + '\n'
                compile(out, p, 'exec')
                with open(p, 'w', encoding='utf8') as fh:
                    fh.write(out)
    return None


def _apply(root, m):
    """Apply the edit(s) of mutant m under root. Returns None if ok, else reason."""
    if m.get('global'):
        return _global_twin(root, m['global'])
    if m.get('patch'):
        p = subprocess.run(['git', 'apply', '--whitespace=nowarn', m['patch']], cwd=root,
                           capture_output=True, text=True)
        if p.returncode != 0:
            return 'patch does not apply to the current tree: %s' % p.stderr.strip()[:200]
        return None
    edits = m.get('edits') or [(m['file'], m['old'], m['new'])]
    for rel, old, new in edits:
        path = os.path.join(root, rel)
        if not os.path.exists(path):
            return 'file %s missing' % rel
        with open(path, encoding='utf8') as f:
            src = f.read()
        if src.count(old) != 1:
            return 'anchor text occurs %d times in %s' % (src.count(old), rel)
        src = src.replace(old, new)
        if rel.endswith('.py'):
            try:
                ast.parse(src)
            except SyntaxError as e:
                return 'variant does not compile: %s' % e
        with open(path, 'w', encoding='utf8') as f:
            f.write(src)
    return None


def _copy_repo(repo, dst):
    shutil.copytree(os.path.join(repo, 'circus'), os.path.join(dst, 'circus'),
                    ignore=shutil.ignore_patterns('__pycache__', '*.pyc'))
    docs = os.path.join(repo, 'docs', 'source')
    for sub in ('for-devs/writing-hooks.rst', 'for-ops/configuration.rst'):
        src = os.path.join(docs, sub)
        if os.path.exists(src):
            d = os.path.join(dst, 'docs', 'source', os.path.dirname(sub))
            os.makedirs(d, exist_ok=True)
            shutil.copy(src, d)


def run_one(prop, repo, m):
    tmp = tempfile.mkdtemp(prefix='verif_%s_' % prop.lower())
    try:
        _copy_repo(repo, tmp)
        why = _apply(tmp, m)
        if why:
            return {'name': m['name'], 'status': 'skipped', 'why': why}
        p = subprocess.run([sys.executable, os.path.join(VERIF, 'check'), prop,
                            '--repo', tmp, '--no-write', '--json'],
                           capture_output=True, text=True, timeout=300)
        out = p.stdout
        res = None
        for line in out.splitlines():
            if line.startswith('JSON:'):
                res = json.loads(line[5:])
        rules = sorted({v['rule'] for v in (res or {}).get('new', [])})
        exp = m.get('expect', 'violation')
        if exp == 'violation':
            want = set(m.get('rules') or [])
            ok = p.returncode == 1 and (not want or bool(want & set(rules)))
        else:
            ok = p.returncode == 0
        return {'name': m['name'], 'expect': exp, 'status': 'ok' if ok else 'DEFECT',
                'rc': p.returncode, 'rules_fired': rules,
                'tail': '' if ok else out[-1500:] + p.stderr[-500:]}
    finally:
        shutil.rmtree(tmp, ignore_errors=True)


def run_for(prop, repo, only=None):
    muts = load_mutants(prop)
    muts.append({'name': 'twin-global-unparse-roundtrip', 'global': 'unparse', 'expect': 'silent'})
    muts.append({'name': 'twin-global-rename-all-locals', 'global': 'rename-locals',
                 'expect': 'silent'})
    muts.append({'name': 'twin-global-logging-everywhere', 'global': 'add-logging',
                 'expect': 'silent'})
    muts.append({'name': 'twin-global-try-finally-wrap', 'global': 'try-finally',
                 'expect': 'silent'})
    muts.append({'name': 'twin-global-guard-clauses', 'global': 'guard-clauses',
                 'expect': 'silent'})
    muts.append({'name': 'twin-global-rename-private-functions',
                 'global': 'rename-private-functions', 'expect': 'silent'})
    for kind in ('reorder-methods', 'annotate', 'return-temp', 'loop-guards', 'dict-copy',
                 'flip-eq', 'in-to-eq', 'temp-before-store', 'swap-polarity',
                 'while-true-break', 'comp-to-loop', 'aug-expand'):
        muts.append({'name': 'twin-global-' + kind, 'global': kind, 'expect': 'silent'})
    if only:
        muts = [m for m in muts if m['name'] in only]
    results = []
    with ThreadPoolExecutor(max_workers=min(16, max(1, len(muts)))) as ex:
        for r in ex.map(lambda m: run_one(prop, repo, m), muts):
            results.append(r)
    defects = [r for r in results if r['status'] == 'DEFECT']
    return {
        'variants': len([r for r in results if r.get('expect') == 'violation']),
        'twins': len([r for r in results if r.get('expect') == 'silent']),
        'skipped': [r for r in results if r['status'] == 'skipped'],
        'detected': [r['name'] for r in results
                     if r['status'] == 'ok' and r.get('expect') == 'violation'],
        'silent_on': [r['name'] for r in results
                      if r['status'] == 'ok' and r.get('expect') == 'silent'],
        'checker_defects': [{k: r[k] for k in ('name', 'expect', 'rc', 'rules_fired')}
                            for r in defects],
        'defect_details': defects,
    }


if __name__ == '__main__':
    sys.path.insert(0, VERIF)
    prop = sys.argv[1].upper()
    only = sys.argv[2:] or None
    res = run_for(prop, os.environ.get('VERIF_REPO', '/repo'), only)
    for d in res.pop('defect_details'):
        print('DEFECT', d['name'], d['expect'], 'rc', d['rc'], d['rules_fired'])
        print(d['tail'])
    print(json.dumps(res, indent=1))
